---------------------------- MODULE RowSearchSym_2 ----------------------------
(***************************************************************************)
(* C23, symbolic leg (Apalache): bit-exact transcription of the arm of     *)
(* bitfield::first_zeros_aligned for order 2 over ALL 2^64 rows.           *)
(* A row is v : 0..63 -> BOOLEAN (TRUE = allocated).  For orders 2..4 the  *)
(* code computes  off = (((v - mask) & !v) >> (W-1)) & mask).trailing_zeros *)
(* with mask = one bit per W-bit lane.  The wrapping subtraction is        *)
(* modelled bit by bit with an explicit borrow chain bw (bw[i] = borrow    *)
(* INTO bit i), constrained in Init.  The invariant states relationally    *)
(* that the lowest set bit of that word is exactly the lowest aligned      *)
(* all-zero block, and that the word is zero iff there is none.            *)
(***************************************************************************)
EXTENDS Integers

VARIABLES
  \* @type: Int -> Bool;
  v,
  \* @type: Int -> Bool;
  bw

W == 4
Bits == 0 .. 63
Starts == { i \in Bits : i % W = 0 }

\* mask: lowest bit of every lane
M(i) == i % W = 0
\* difference bit and borrow out of bit i of (v - mask)
D(i) == (v[i] /= M(i)) /= bw[i]
BorrowOut(i) == (~v[i] /\ (M(i) \/ bw[i])) \/ (M(i) /\ bw[i])
T(i) == D(i) /\ ~v[i]
\* ((t >> (W-1)) & mask) at bit b
U(b) == M(b) /\ T(b + W - 1)

ZeroBlock(b) == \A j \in Bits : (j >= b /\ j < b + W) => ~v[j]

Init ==
  /\ v \in [Bits -> BOOLEAN]
  /\ bw \in [0 .. 64 -> BOOLEAN]
  /\ ~bw[0]
  /\ \A i \in Bits : bw[i + 1] = BorrowOut(i)

Next == UNCHANGED <<v, bw>>

\* the word is zero iff no aligned free block exists; its lowest set bit is the lowest free block
Inv ==
  /\ (\A b \in Starts : ~U(b)) <=> (\A b \in Starts : ~ZeroBlock(b))
  /\ \A b \in Starts :
       (U(b) /\ \A c \in Starts : c < b => ~U(c))
         => (ZeroBlock(b) /\ \A c \in Starts : c < b => ~ZeroBlock(c))
=============================================================================

SPECIFICATION Spec
CONSTANTS
  Letters <- Classy
  Depth = 3
INVARIANT Emit
CHECK_DEADLOCK FALSE

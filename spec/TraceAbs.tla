----------------------------- MODULE TraceAbs -----------------------------
(***************************************************************************)
(* Validation of executions recorded from the real llfree code against the *)
(* ABSTRACT model (Abs.tla).  One ndjson line = one event.  Sequential     *)
(* calls are a single step ("sc": arguments, result, observation after the *)
(* call).  Concurrent executions log "call" / "ret" separately; the        *)
(* abstract effect of a call happens in a silent Lin(t) step somewhere in  *)
(* between (linearizability).  "crash" and "solo" events are observations  *)
(* of hypothetical continuations (C05, C21).                               *)
(*                                                                         *)
(* Property predicates are wrapped in Chk(p, name, P): if property p is    *)
(* selected and P is false the step is disabled (the trace is rejected at  *)
(* that line) after printing <<"FAIL", p, name, line>>.                    *)
(***************************************************************************)
EXTENDS Abs, Json, IOUtils, SequencesExt

Rec == ndJsonDeserialize(IOEnv.TRACE)
NRec == Len(Rec)

MAXT == 3                                  \* max threads in a recorded execution
Threads == 0 .. MAXT - 1
NoPend == [op |-> "none"]
NoCfg == [frames |-> 0, th |-> 1, ho |-> 9, cls |-> "single", k |-> 1, c11 |-> 0, kind |-> "none"]

VARIABLES
  l,        \* next line of the trace
  props,    \* selected properties
  cfg,      \* configuration of the current run
  fr, whole, hidden,   \* abstract state (Abs.tla)
  ot, os,   \* tree words / slot words of the last observation
  drained,  \* the previous call was a drain (C10)
  c11ok,    \* every call so far satisfies the preconditions of C11
  pend,     \* pend[t]: in-flight call of thread t (the call event incl. its later result)
  lin,      \* lin[t]: the in-flight call of t has taken effect
  held,     \* blocks <<f,o>> returned by completed allocations, no free started
  fuzzy,    \* trees whose hidden count is not tracked exactly (concurrent tree changes)
  snap      \* state saved by a "mark" event (restored by "rewind")

vars == <<l, props, cfg, fr, whole, hidden, ot, os, drained, c11ok, pend, lin, held, fuzzy, snap>>

Chk(p, name, P) ==
  IF p \notin props THEN TRUE
  ELSE IF P THEN TRUE
  ELSE PrintT(<<"FAIL", p, name, l>>) /\ FALSE

e == Rec[l]
IsEv(k) == l <= NRec /\ e.ev = k
Has(r, f) == f \in DOMAIN r

----------------------------------------------------------------------------
\* Reading an observation

RECURSIVE RangesToSet(_)
RangesToSet(rs) == IF rs = <<>> THEN {} ELSE (rs[1][1] .. rs[1][2]) \cup RangesToSet(Tail(rs))
RECURSIVE RangesLen(_)
RangesLen(rs) == IF rs = <<>> THEN 0 ELSE (rs[1][2] - rs[1][1] + 1) + RangesLen(Tail(rs))

\* per-frame view of huge frame h according to observation o, given the previous view
ObsFr(o, prev, h) ==
  LET hits == SelectSeq(o.chg, LAMBDA p : p[1] = h)
  IN IF hits = <<>> THEN prev[h] ELSE RangesToSet(hits[1][2])

RowTree(c, row) == (row * 64) \div TF(c)
SlotsOn(c, o, t) == {i \in DOMAIN o.slots : o.slots[i][3] = 1 /\ RowTree(c, o.slots[i][4]) = t}
SlotFree(c, o, t) == SumF([i \in SlotsOn(c, o, t) |-> o.slots[i][5]], SlotsOn(c, o, t))

ObsOk(o) == ~Has(o, "panic")

\* C04: every view agrees with the set of allocated frames
Quiescent(c, f, w, hid, fz, o) ==
  /\ Chk("C04", "exact-free-count", o.stats[1] = FreeTotal(c, f))
  /\ Chk("C04", "free-huge-count", o.stats[2] = FreeHugeCount(c, f))
  /\ Chk("C04", "free-tree-count", o.stats[3] = FreeTreeCount(c, f))
  /\ Chk("C04", "per-huge-query",
         \A h \in Huges(c) :
            /\ o.huge[h + 1][1] = FreeInHuge(f, h)
            /\ o.huge[h + 1][2] = FreeInHuge(f, h) \div HF(c)
            /\ o.huge[h + 1][3] = (IF FullHuge(c, h) THEN (IF f[h] = AllOff(c) THEN 1 ELSE 0) ELSE 2))
  /\ Chk("C04", "per-tree-query",
         \A t \in Trees(c) :
            LET ft == FreeInTree(c, f, t)
                hs == HugesOfTree(c, t)
                fh == SumF([h \in hs |-> FreeInHuge(f, h) \div HF(c)], hs)
            IN /\ o.tfree[t + 1][1] = ft
               /\ o.tfree[t + 1][2] = fh
               /\ o.tfree[t + 1][3] = ft \div TF(c)
               /\ o.tfree[t + 1][4] = (IF FullTree(c, t) THEN (IF ft = TF(c) THEN 1 ELSE 0) ELSE 2))
  /\ Chk("C04", "per-frame-query", o.isfree_bad = <<>>)
  /\ Chk("C04", "tree-counter-conservation",
         \A t \in Trees(c) \ fz :
            o.trees[t + 1][1] + SlotFree(c, o, t) = FreeInTree(c, f, t) - hid[t])
  /\ Chk("C04", "tree-counter-bounds",
         \A t \in fz \cap Trees(c) : o.trees[t + 1][1] + SlotFree(c, o, t) <= FreeInTree(c, f, t))
  \* C15 under concurrency: whatever tree a change was applied to, no tree may account for more than is free
  /\ Chk("C15", "tree-counter-bounds-after-changes",
         \A t \in Trees(c) : o.trees[t + 1][1] + SlotFree(c, o, t) <= FreeInTree(c, f, t))
  /\ Chk("C15", "reserved-iff-one-slot",
         \A t \in Trees(c) : (o.trees[t + 1][2] = 1) <=> (Cardinality(SlotsOn(c, o, t)) = 1))
  /\ Chk("C04", "reserved-iff-one-slot",
         \A t \in Trees(c) : (o.trees[t + 1][2] = 1) <=> (Cardinality(SlotsOn(c, o, t)) = 1))
  /\ Chk("C04", "no-slot-shares-tree", \A t \in Trees(c) : Cardinality(SlotsOn(c, o, t)) <= 1)
  /\ Chk("C04", "fast-count", fz # {} \/ o.ts[1] = o.stats[1] - HiddenTotal(c, hid))
  /\ Chk("C04", "validate", fz # {} \/ HiddenTotal(c, hid) # 0 \/ o.validate = "ok")

\* C14: per-class statistics
PerClass(c, o) ==
  LET n == Len(o.cls)
      tot == SumSeq([i \in 1 .. n |-> o.cls[i][1] + o.cls[i][2]])
      fre == SumSeq([i \in 1 .. n |-> o.cls[i][1]])
  IN /\ Chk("C14", "class-sum-is-trees-times-size", tot = NT(c) * TF(c))
     /\ Chk("C14", "class-free-sum-is-fast-count", fre = o.ts[1])

\* observation o is a faithful picture of abstract state (f, w, hid); the per-frame
\* view must be exactly f, i.e. changed exactly where the abstract operation changed it
ObsAgrees(p, prevf, c, f, w, hid, fz, o) ==
  /\ Chk("C09", "observation-panicked", ObsOk(o))
  /\ Chk(p, "observation-panicked", ObsOk(o))
  /\ Chk("C04", "observation-panicked", ObsOk(o))
  /\ ObsOk(o) =>
       /\ Chk(p, "frame-status", \A h \in Huges(c) : ObsFr(o, prevf, h) = f[h])
       /\ Chk("C17", "frame-status", c.kind \notin {"zone", "nvm"} \/ \A h \in Huges(c) : ObsFr(o, prevf, h) = f[h])
       /\ Quiescent(c, f, w, hid, fz, o)
       /\ PerClass(c, o)

----------------------------------------------------------------------------
\* Initial state and run boundaries

FreshPend == [t \in Threads |-> NoPend]
FreshLin == [t \in Threads |-> FALSE]

Init ==
  /\ TLCSet(1, 1)
  /\ l = 1
  /\ props = {}
  /\ cfg = NoCfg
  /\ fr = <<>> /\ whole = <<>> /\ hidden = <<>>
  /\ ot = <<>> /\ os = <<>>
  /\ drained = FALSE /\ c11ok = TRUE
  /\ pend = FreshPend /\ lin = FreshLin
  /\ held = {} /\ fuzzy = {}
  /\ snap = <<>>

Hdr ==
  /\ IsEv("hdr")
  /\ props' = {e.props[i] : i \in DOMAIN e.props}
  /\ l' = l + 1
  /\ UNCHANGED <<cfg, fr, whole, hidden, ot, os, drained, c11ok, pend, lin, held, fuzzy, snap>>

\* "reset": a fresh allocator (C06: its state is a function of frame count and mode)
Reset ==
  /\ IsEv("reset")
  /\ LET c == [frames |-> e.frames, th |-> e.th, ho |-> e.ho, cls |-> e.cls, k |-> e.k,
               c11 |-> e.c11, kind |-> e.kind]
         f == InitFr(c, e.init)
         w == InitWhole(c, e.init)
         hid == InitHidden(c)
     IN /\ cfg' = c
        /\ Chk("C09", "construction-failed", e.ierr = "")
        /\ Chk("C06", "construction-failed", e.ierr = "")
        /\ IF e.ierr = ""
           THEN /\ fr' = f /\ whole' = w /\ hidden' = hid
                /\ ObsAgrees("C06", f, c, f, w, hid, {}, e.obs)
                /\ Chk("C06", "init-tree-words",
                       \A t \in Trees(c) : e.obs.trees[t + 1] = <<FreeInTree(c, f, t), 0, DefaultClass(c)>>)
                /\ Chk("C06", "init-no-reservation", \A i \in DOMAIN e.obs.slots : e.obs.slots[i][3] = 0)
                /\ ot' = e.obs.trees /\ os' = e.obs.slots
           ELSE /\ fr' = f /\ whole' = w /\ hidden' = hid /\ ot' = <<>> /\ os' = <<>>
  /\ drained' = FALSE /\ c11ok' = TRUE
  /\ pend' = FreshPend /\ lin' = FreshLin
  /\ held' = {} /\ fuzzy' = {}
  /\ snap' = <<>>
  /\ l' = l + 1
  /\ UNCHANGED props


\* "reinit": the allocator is rebuilt from (byte copies of) its own metadata:
\* init = "none" (assume initialized, C07) or "recover" (C05 at a quiescent point)
Reinit ==
  /\ IsEv("reinit")
  /\ Chk("C09", "rebuild-failed", e.ierr = "")
  /\ Chk("C05", "rebuild-failed", e.ierr = "")
  /\ Chk("C07", "rebuild-failed", e.ierr = "")
  /\ Chk("C17", "rebuild-failed", e.ierr = "")
  /\ Chk("C17", "recovered-layout", Has(e, "managed") => (e.managed = cfg.frames /\ e.offrel = 0))
  /\ IF e.ierr = ""
     THEN LET hid == IF e.init = "recover" THEN InitHidden(cfg) ELSE hidden
              p == IF cfg.kind = "nvm" THEN "C17" ELSE IF e.init = "recover" THEN "C05" ELSE "C07"
          IN /\ hidden' = hid
             /\ ObsAgrees(p, fr, cfg, fr, whole, hid, {}, e.obs)
             /\ ObsOk(e.obs) =>
                  /\ Chk("C05", "recovered-without-reservations",
                         e.init = "recover" =>
                            /\ \A i \in DOMAIN e.obs.slots : e.obs.slots[i][3] = 0
                            /\ \A t \in Trees(cfg) : e.obs.trees[t + 1][2] = 0)
                  /\ Chk("C07", "same-volatile-state",
                         e.init = "none" => e.obs.trees = ot /\ e.obs.slots = os)
             /\ ot' = e.obs.trees /\ os' = e.obs.slots
     ELSE hidden' = hidden /\ ot' = ot /\ os' = os
  /\ fuzzy' = {}
  /\ drained' = FALSE
  /\ l' = l + 1
  /\ UNCHANGED <<props, cfg, fr, whole, c11ok, pend, lin, held, snap>>

----------------------------------------------------------------------------
\* Abstract effect and admissibility of one call.
\* ev: the call event (with result); (f, w, hid): state before; returns the
\* admissibility and the state after through the operators below.

IsGet(ev) == ev.op = "get"
IsPut(ev) == ev.op = "put"
TargetOf(ev) == IF ev.target = -1 THEN 0 ELSE ev.target

CallCheck(c, ev) ==
  IF IsGet(ev) THEN Check(c, TargetOf(ev), ev.order, ev.class)
  ELSE Check(c, ev.frame, ev.order, ev.class)

\* state after the call according to its result
FrAfter(c, f, ev) ==
  IF ev.res # "ok" THEN f
  ELSE IF IsGet(ev) THEN TakeFr(c, f, ev.frame, ev.order)
  ELSE IF IsPut(ev) THEN ReleaseFr(c, f, ev.frame, ev.order)
  ELSE f
WholeAfter(c, w, ev) ==
  IF ev.res # "ok" THEN w
  ELSE IF IsGet(ev) THEN TakeWhole(c, w, ev.frame, ev.order)
  ELSE IF IsPut(ev) THEN ReleaseWhole(c, w, ev.frame, ev.order)
  ELSE w

\* C02 / C08 / C09 / C13 / C15: is this result admissible in state (f, w, hid)?
\* (`seq`: the call ran without concurrency, so errors are constrained too)
GetAdmissible(c, f, w, hid, ev, seq) ==
  /\ Chk("C09", "no-panic", ev.res # "panic")
  /\ Chk("C03", "no-panic", ev.res # "panic")
  /\ Chk("C08", "invalid-argument-rejected", ~CallCheck(c, ev) => ev.res = "arg")
  /\ Chk("C08", "valid-argument-not-rejected", CallCheck(c, ev) => ev.res # "arg")
  /\ ev.res = "ok" =>
       /\ Chk("C02", "result-in-range-aligned",
              ev.frame % Pow2(ev.order) = 0 /\ ev.frame >= 0 /\ ev.frame + Pow2(ev.order) <= c.frames)
       /\ Chk("C01", "result-in-range-aligned",
              ev.frame % Pow2(ev.order) = 0 /\ ev.frame >= 0 /\ ev.frame + Pow2(ev.order) <= c.frames)
       /\ (ev.frame % Pow2(ev.order) = 0 /\ ev.frame >= 0 /\ ev.frame + Pow2(ev.order) <= c.frames) =>
            /\ Chk("C02", "allocated-block-was-free", BlockFree(c, f, ev.frame, ev.order))
            /\ Chk("C01", "allocated-block-was-free", BlockFree(c, f, ev.frame, ev.order))
            /\ Chk("C15", "allocated-from-offline-tree", ~FullyOffline(c, hid, TreeOf(c, ev.frame)))
       /\ Chk("C02", "targeted-returns-target", ev.target = -1 \/ ev.frame = ev.target)
       /\ Chk("C13", "class-admissible", ClassAdmissible(c, ev.class, ev.rclass))
  /\ Chk("C02", "known-result", ev.res \in {"ok", "mem", "arg", "panic"})

PutAdmissible(c, f, w, hid, ev, seq) ==
  /\ Chk("C09", "no-panic", ev.res # "panic")
  /\ Chk("C03", "no-panic", ev.res # "panic")
  /\ Chk("C08", "invalid-argument-rejected", ~CallCheck(c, ev) => ev.res = "arg")
  /\ Chk("C08", "valid-argument-not-rejected", CallCheck(c, ev) => ev.res # "arg")
  /\ CallCheck(c, ev) =>
       /\ Chk("C02", "free-of-allocated-block-succeeds",
              PutOk(c, f, w, ev.frame, ev.order) => ev.res = "ok")
       /\ Chk("C02", "free-succeeds-only-if-allocated",
              ev.res = "ok" => PutOk(c, f, w, ev.frame, ev.order))
       /\ Chk("C01", "free-succeeds-only-if-allocated",
              ev.res = "ok" => PutOk(c, f, w, ev.frame, ev.order))

----------------------------------------------------------------------------
\* Sequential call: one step

\* C10 / C11: when is out-of-memory not admissible?
OomAdmissible(c, f, hid, ev) ==
  /\ Chk("C10", "drained-base-oom",
         (drained /\ fuzzy = {} /\ NeverInvalid(c) /\ ev.target = -1 /\ ev.order = 0 /\ CallCheck(c, ev))
            => DrainedOomOk(c, f, hid))
  \* fuzzy # {}: concurrent tree changes ran in this execution, which trees are offline is not tracked exactly
  \* (their frames are legitimately unallocatable, C15) - no C10 demand then
  /\ Chk("C10", "drained-get-at-must-succeed",
         (drained /\ fuzzy = {} /\ NeverInvalid(c) /\ ev.target # -1 /\ CallCheck(c, ev))
            => ~DrainedGetAtMust(c, f, hid, ev.target, ev.order))
  /\ Chk("C11", "single-slot-oom",
         (c.c11 = 1 /\ c11ok /\ ev.target = -1 /\ ev.order = 0 /\ ev.slot = 0 /\ ev.class = 0)
            => SingleSlotOomOk(c, f))

C11Pre(ev) ==
  CASE ev.op = "get" -> ev.order = 0 /\ ev.target = -1 /\ ev.class = 0 /\ ev.slot = 0
    [] ev.op = "put" -> TRUE
    [] OTHER -> FALSE

Twin(p, ev) ==
  Has(ev, "tw") =>
     /\ Chk("C07", "same-result", ev.tw.res = ev.res)
     /\ Chk("C07", "same-frame", ev.res # "ok" \/ ~IsGet(ev) \/ (ev.tw.frame = ev.frame /\ ev.tw.rclass = ev.rclass))
     /\ Chk("C07", "same-observation", ev.tw.obs = ev.obs)

\* A call that panicked violates C09 (and nothing else is asked of it: the
\* allocator's state is undefined afterwards and the harness ends the run).
SeqPanic ==
  /\ IsEv("sc") /\ e.res = "panic"
  /\ Chk("C09", "no-panic", FALSE)
  \* sequential calls in a concurrent scenario's trace are the callers' wind-down (frees of what they hold, drain)
  /\ Chk("C03", "no-panic", FALSE)
  \* a call with invalid arguments must be rejected with the argument error - a panic is not a rejection
  /\ Chk("C08", "invalid-argument-rejected", (e.op \in {"get", "put"}) => CallCheck(cfg, e))
  /\ l' = l + 1
  /\ UNCHANGED <<props, cfg, fr, whole, hidden, ot, os, drained, c11ok, pend, lin, held, fuzzy, snap>>

SeqGet ==
  /\ IsEv("sc") /\ e.op = "get" /\ e.res # "panic"
  /\ GetAdmissible(cfg, fr, whole, hidden, e, TRUE)
  /\ e.res = "mem" => OomAdmissible(cfg, fr, hidden, e)
  /\ LET f2 == FrAfter(cfg, fr, e) w2 == WholeAfter(cfg, whole, e)
     IN /\ fr' = f2 /\ whole' = w2
        /\ ObsAgrees("C02", fr, cfg, f2, w2, hidden, fuzzy, e.obs)
  /\ Twin("C07", e)
  /\ ot' = e.obs.trees /\ os' = e.obs.slots
  /\ drained' = FALSE
  /\ c11ok' = (c11ok /\ C11Pre(e))
  /\ l' = l + 1
  /\ UNCHANGED <<props, cfg, hidden, pend, lin, held, fuzzy, snap>>

SeqPut ==
  /\ IsEv("sc") /\ e.op = "put" /\ e.res # "panic"
  /\ PutAdmissible(cfg, fr, whole, hidden, e, TRUE)
  /\ Chk("C03", "free-of-held-block-succeeds", Has(e, "epilogue") => e.res = "ok")
  /\ Chk("C02", "known-result", e.res \in {"ok", "mem", "arg", "panic"})
  /\ LET f2 == FrAfter(cfg, fr, e) w2 == WholeAfter(cfg, whole, e)
     IN /\ fr' = f2 /\ whole' = w2
        /\ ObsAgrees("C02", fr, cfg, f2, w2, hidden, fuzzy, e.obs)
  /\ Twin("C07", e)
  /\ ot' = e.obs.trees /\ os' = e.obs.slots
  /\ drained' = FALSE
  /\ c11ok' = (c11ok /\ C11Pre(e))
  /\ l' = l + 1
  /\ UNCHANGED <<props, cfg, hidden, pend, lin, held, fuzzy, snap>>

SeqDrain ==
  /\ IsEv("sc") /\ e.op = "drain" /\ e.res # "panic"
  /\ Chk("C09", "no-panic", e.res # "panic")
  /\ ObsAgrees("C02", fr, cfg, fr, whole, hidden, fuzzy, e.obs)
  /\ ObsOk(e.obs) => Chk("C10", "drain-clears-reservations",
                         e.res = "panic" \/ \A i \in DOMAIN e.obs.slots : e.obs.slots[i][3] = 0)
  /\ Twin("C07", e)
  /\ ot' = e.obs.trees /\ os' = e.obs.slots
  /\ drained' = (e.res = "ok")
  /\ c11ok' = FALSE
  /\ l' = l + 1
  /\ UNCHANGED <<props, cfg, fr, whole, hidden, pend, lin, held, fuzzy, snap>>

\* C15: tree changes
Cand(c, ev, t) ==
  /\ t \in Trees(c)
  /\ ev.id = -1 \/ ev.id = t
  /\ ot[t + 1][2] = 0
  /\ ev.mclass = -1 \/ ot[t + 1][3] = ev.mclass
  /\ ot[t + 1][1] >= ev.mfree
  /\ ev.cop = 1 => ot[t + 1][1] = 0
NewWord(c, ev, t) ==
  <<CASE ev.cop = 2 -> 0
      [] ev.cop = 1 -> FreeInTree(c, fr, t)
      [] OTHER -> ot[t + 1][1],
    0,
    IF ev.cclass = -1 THEN ot[t + 1][3] ELSE ev.cclass>>
NewHidden(ev, t) ==
  CASE ev.cop = 2 -> [hidden EXCEPT ![t] = @ + ot[t + 1][1]]
    [] ev.cop = 1 -> [hidden EXCEPT ![t] = 0]
    [] OTHER -> hidden
Applied(c, ev, t) ==
  /\ Cand(c, ev, t)
  /\ ev.obs.trees = [ot EXCEPT ![t + 1] = NewWord(c, ev, t)]

SeqChange ==
  /\ IsEv("sc") /\ e.op = "change" /\ e.res # "panic"
  /\ Chk("C09", "no-panic", e.res # "panic")
  /\ ObsOk(e.obs) /\ e.res # "panic" =>
      /\ Chk("C15", "change-applies-to-one-matching-unreserved-tree",
             e.res = "ok" => \E t \in Trees(cfg) : Applied(cfg, e, t))
      /\ Chk("C15", "failed-change-changes-nothing", e.res # "ok" => e.obs.trees = ot)
      /\ Chk("C15", "change-keeps-reservations", e.obs.slots = os)
      \* by id and by search alike (Cand fixes t = e.id for a change by id): a candidate tree exists => the change succeeds
      /\ Chk("C15", "offline-of-free-unreserved-tree-succeeds",
             (e.cop = 2 /\ \E t \in Trees(cfg) : Cand(cfg, e, t) /\ hidden[t] = 0
                                                   /\ ot[t + 1][1] = ManagedInTree(cfg, t)) => e.res = "ok")
      /\ Chk("C15", "online-of-offline-tree-succeeds",
             (e.cop = 1 /\ \E t \in Trees(cfg) : Cand(cfg, e, t)) => e.res = "ok")
  /\ hidden' = IF e.res = "ok" /\ \E t \in Trees(cfg) : Applied(cfg, e, t)
               THEN NewHidden(e, CHOOSE t \in Trees(cfg) : Applied(cfg, e, t))
               ELSE hidden
  /\ ObsAgrees("C02", fr, cfg, fr, whole, hidden', fuzzy, e.obs)
  /\ Twin("C07", e)
  /\ ot' = e.obs.trees /\ os' = e.obs.slots
  /\ drained' = FALSE
  /\ c11ok' = FALSE
  /\ l' = l + 1
  /\ UNCHANGED <<props, cfg, fr, whole, pend, lin, held, fuzzy, snap>>


----------------------------------------------------------------------------
\* C17: zone and persistent wrappers.  The harness drives the wrapper with frame
\* numbers shifted up by the zone's offset and logs them shifted down again, so all
\* other actions see the wrapped allocator in its own coordinates: a wrong
\* translation shows up as a misplaced or out-of-range block.

LowerBytes(total, th, ho) ==
  LET c == [frames |-> total, th |-> th, ho |-> ho]
  IN NH(c) * (HF(c) \div 8) + NT(c) * 64
\* frames the persistent wrapper manages in a region of `total` frames:
\* everything but the header page and the pages of the lower metadata
NvmManaged(total, th, ho, fsize) == total - 1 - CeilDiv(LowerBytes(total, th, ho), fsize)

Same == UNCHANGED <<props, cfg, fr, whole, hidden, ot, os, drained, c11ok, pend, lin, held, fuzzy, snap>>

ZCreate ==
  /\ IsEv("zcreate")
  /\ Chk("C17", "zone-offset-must-be-tree-aligned", (e.res = "ok") = (e.aligned = 1))
  /\ l' = l + 1 /\ Same
NvmCreate ==
  /\ IsEv("nvm_create")
  /\ Chk("C17", "nvm-created", e.res = "ok")
  /\ Chk("C17", "nvm-layout", e.res = "ok" =>
         (e.managed = NvmManaged(e.total, e.th, e.ho, e.fsize) /\ e.offrel = 0))
  /\ l' = l + 1 /\ Same
NvmRefuse ==
  /\ IsEv("nvm_refuse")
  /\ Chk("C17", "recover-without-matching-instance-refused", e.res = "init")
  /\ l' = l + 1 /\ Same
SeqZBelow ==
  /\ IsEv("sc") /\ e.op = "zbelow" /\ e.res # "panic"
  /\ Chk("C17", "below-offset-rejected", e.res = "arg")
  /\ Chk("C08", "below-offset-rejected", e.res = "arg")
  /\ Chk("C17", "below-offset-not-free", e.res = "panic" \/ e.stat = 0)
  /\ ObsAgrees("C17", fr, cfg, fr, whole, hidden, fuzzy, e.obs)
  /\ ot' = e.obs.trees /\ os' = e.obs.slots
  /\ drained' = FALSE
  /\ l' = l + 1
  /\ UNCHANGED <<props, cfg, fr, whole, hidden, c11ok, pend, lin, held, fuzzy, snap>>

----------------------------------------------------------------------------
\* Bulk steps (C06, C11): many calls of one kind as a single composed step

\* "bulkget": gets of one order/class/slot until the first failure.
\* e.runs: the returned frames in return order, as maximal ascending runs [lo, hi]
\* of consecutive block starts (stride 2^order); e.last: result of the final call.
RECURSIVE RunsToSet(_, _)
RunsToSet(rs, st) ==
  IF rs = <<>> THEN {}
  ELSE {rs[1][1] + i * st : i \in 0 .. ((rs[1][2] - rs[1][1]) \div st)} \cup RunsToSet(Tail(rs), st)
RECURSIVE RunsCount(_, _)
RunsCount(rs, st) ==
  IF rs = <<>> THEN 0 ELSE ((rs[1][2] - rs[1][1]) \div st) + 1 + RunsCount(Tail(rs), st)

BulkGet ==
  /\ IsEv("bulkget")
  /\ LET st == Pow2(e.order)
         S == RunsToSet(e.runs, st)
         n == RunsCount(e.runs, st)
         frames == UNION {BlockFrames(b, e.order) : b \in S}
         f2 == [h \in Huges(cfg) |->
                  fr[h] \ {x - h * HF(cfg) : x \in {y \in frames : HugeOf(cfg, y) = h}}]
     IN /\ e.order < cfg.ho
        /\ Chk("C09", "no-panic", e.last # "panic")
        /\ Chk("C02", "no-block-returned-twice", Cardinality(S) = n)
        /\ Chk("C06", "no-block-returned-twice", Cardinality(S) = n)
        /\ Chk("C02", "bulk-blocks-were-free",
               \A b \in S : b % st = 0 /\ b + st <= cfg.frames /\ BlockFree(cfg, fr, b, e.order))
        /\ Chk("C06", "bulk-blocks-were-free",
               \A b \in S : b % st = 0 /\ b + st <= cfg.frames /\ BlockFree(cfg, fr, b, e.order))
        /\ Chk("C13", "class-admissible", \A i \in DOMAIN e.rclasses : ClassAdmissible(cfg, e.class, e.rclasses[i]))
        /\ fr' = f2
        /\ ObsAgrees("C02", fr, cfg, f2, whole, hidden, fuzzy, e.obs)
        /\ Chk("C11", "single-slot-oom",
               (cfg.c11 = 1 /\ c11ok /\ e.order = 0 /\ e.slot = 0 /\ e.class = 0 /\ e.last = "mem")
                  => SingleSlotOomOk(cfg, f2))
        /\ Chk("C06", "exhaustion-takes-every-frame",
               (Has(e, "exhaust") /\ e.exhaust = 1) => SingleSlotOomOk(cfg, f2))
        /\ c11ok' = (c11ok /\ e.order = 0 /\ e.class = 0 /\ e.slot = 0)
  /\ ot' = e.obs.trees /\ os' = e.obs.slots
  /\ drained' = FALSE
  /\ l' = l + 1
  /\ UNCHANGED <<props, cfg, whole, hidden, pend, lin, held, fuzzy, snap>>

\* "bulkput": frees of e.blocks = <<<<frame, order, ok>>, ...>> (in this order)
RECURSIVE PutsOk(_, _, _, _)
PutsOk(c, f, w, bs) ==
  IF bs = <<>> THEN TRUE
  ELSE LET b == bs[1]
           should == Check(c, b[1], b[2], 0) /\ PutOk(c, f, w, b[1], b[2])
       IN /\ (b[3] = 1) = should
          /\ PutsOk(c, IF b[3] = 1 THEN ReleaseFr(c, f, b[1], b[2]) ELSE f,
                       IF b[3] = 1 THEN ReleaseWhole(c, w, b[1], b[2]) ELSE w, Tail(bs))
RECURSIVE FrAfterPuts(_, _, _)
FrAfterPuts(c, f, bs) ==
  IF bs = <<>> THEN f
  ELSE FrAfterPuts(c, IF bs[1][3] = 1 THEN ReleaseFr(c, f, bs[1][1], bs[1][2]) ELSE f, Tail(bs))
RECURSIVE WholeAfterPuts(_, _, _)
WholeAfterPuts(c, w, bs) ==
  IF bs = <<>> THEN w
  ELSE WholeAfterPuts(c, IF bs[1][3] = 1 THEN ReleaseWhole(c, w, bs[1][1], bs[1][2]) ELSE w, Tail(bs))

BulkPut ==
  /\ IsEv("bulkput")
  /\ Chk("C09", "no-panic", e.panic = "")
  /\ Chk("C02", "bulk-frees-follow-ownership", PutsOk(cfg, fr, whole, e.blocks))
  /\ Chk("C06", "bulk-frees-follow-ownership", PutsOk(cfg, fr, whole, e.blocks))
  /\ LET f2 == FrAfterPuts(cfg, fr, e.blocks) w2 == WholeAfterPuts(cfg, whole, e.blocks)
     IN /\ fr' = f2 /\ whole' = w2
        /\ ObsAgrees("C02", fr, cfg, f2, w2, hidden, fuzzy, e.obs)
        /\ Chk("C06", "all-free-after-freeing-everything",
               (Has(e, "allfree") /\ e.allfree = 1) =>
                  /\ f2 = InitFr(cfg, "free")
                  /\ \A t \in Trees(cfg) : e.obs.trees[t + 1][1] + SlotFree(cfg, e.obs, t) = ManagedInTree(cfg, t))
  /\ ot' = e.obs.trees /\ os' = e.obs.slots
  /\ drained' = FALSE
  /\ l' = l + 1
  /\ UNCHANGED <<props, cfg, hidden, c11ok, pend, lin, held, fuzzy, snap>>

----------------------------------------------------------------------------
\* Concurrent executions: call / Lin / ret

\* remaining buddies of block <<bf, bo>> after the part <<pf, po>> was freed
RECURSIVE Buddies(_, _, _, _)
Buddies(bf, bo, pf, po) ==
  IF bo = po THEN {}
  ELSE LET half == Pow2(bo - 1)
           lo == bf  hi == bf + half
       IN IF pf < hi THEN {<<hi, bo - 1>>} \cup Buddies(lo, bo - 1, pf, po)
          ELSE {<<lo, bo - 1>>} \cup Buddies(hi, bo - 1, pf, po)
Covers(b, f, o) == b[1] <= f /\ f + Pow2(o) <= b[1] + Pow2(b[2])

NeedsLin(ev) == ev.res = "ok" /\ ev.op \in {"get", "put"}

Call ==
  /\ IsEv("call")
  /\ pend[e.t] = NoPend
  /\ pend' = [pend EXCEPT ![e.t] = e]
  \* calls without abstract effect take effect at once (less branching)
  /\ lin' = [lin EXCEPT ![e.t] = ~NeedsLin(e)]
  /\ Chk("C03", "no-panic", e.res # "panic")
  /\ Chk("C09", "no-panic", e.res # "panic")
  /\ Chk("C03", "free-of-held-block-succeeds", e.op = "put" => e.res = "ok")
  /\ Chk("C13", "class-admissible",
         (e.op = "get" /\ e.res = "ok") => ClassAdmissible(cfg, e.class, e.rclass))
  /\ Chk("C08", "invalid-argument-rejected", (e.op \in {"get", "put"} /\ ~CallCheck(cfg, e)) => e.res = "arg")
  \* a started free touches the block it belongs to
  /\ held' = IF e.op = "put" THEN {b \in held : ~Covers(b, e.frame, e.order)} ELSE held
  \* after a panic the allocator's state is undefined: -1 marks the rest of the execution
  /\ fuzzy' = IF e.res = "panic" THEN fuzzy \cup {-1}
              ELSE IF e.op = "change" /\ e.cop # 0 THEN fuzzy \cup Trees(cfg) ELSE fuzzy
  /\ l' = l + 1
  /\ UNCHANGED <<props, cfg, fr, whole, hidden, ot, os, drained, c11ok, snap>>

\* the abstract effect of thread t's in-flight call happens now
Lin(t) ==
  /\ l <= NRec
  /\ pend[t] # NoPend /\ ~lin[t]
  /\ LET ev == pend[t]
     IN /\ IF ev.op = "get"
           THEN /\ ev.frame % Pow2(ev.order) = 0 /\ ev.frame + Pow2(ev.order) <= cfg.frames
                /\ BlockFree(cfg, fr, ev.frame, ev.order)
                /\ ev.target = -1 \/ ev.frame = ev.target
           ELSE PutOk(cfg, fr, whole, ev.frame, ev.order)
        /\ fr' = FrAfter(cfg, fr, ev)
        /\ whole' = WholeAfter(cfg, whole, ev)
  /\ lin' = [lin EXCEPT ![t] = TRUE]
  /\ UNCHANGED <<l, props, cfg, hidden, ot, os, drained, c11ok, pend, held, fuzzy, snap>>

Ret ==
  /\ IsEv("ret")
  /\ pend[e.t] # NoPend /\ lin[e.t]
  /\ LET ev == pend[e.t]
     IN held' = IF ev.op = "get" /\ ev.res = "ok" THEN held \cup {<<ev.frame, ev.order>>}
                ELSE IF ev.op = "put" /\ ev.res = "ok" /\ Has(ev, "of")
                THEN held \cup Buddies(ev.of[1], ev.of[2], ev.frame, ev.order)
                ELSE held
  /\ pend' = [pend EXCEPT ![e.t] = NoPend]
  /\ l' = l + 1
  /\ UNCHANGED <<props, cfg, fr, whole, hidden, ot, os, drained, c11ok, lin, fuzzy, snap>>

\* quiescent observation at the end of a concurrent execution (C04)
Obs ==
  /\ IsEv("obs")
  /\ \A t \in Threads : pend[t] = NoPend
  /\ Chk("C04", "observation-panicked", -1 \in fuzzy \/ ObsOk(e.obs))
  /\ (ObsOk(e.obs) /\ -1 \notin fuzzy) =>
       /\ Chk("C04", "frame-status",
              \A h \in Huges(cfg) : RangesToSet(SelectSeq(e.obs.chg, LAMBDA p : p[1] = h)[1][2]) = fr[h])
       /\ Quiescent(cfg, fr, whole, hidden, fuzzy, e.obs)
       /\ PerClass(cfg, e.obs)
  /\ ot' = e.obs.trees /\ os' = e.obs.slots
  /\ l' = l + 1
  /\ UNCHANGED <<props, cfg, fr, whole, hidden, drained, c11ok, pend, lin, held, fuzzy, snap>>

\* "mark" saves the state reached by a scenario's sequential setup, "rewind" restores it
Mark ==
  /\ IsEv("mark")
  /\ held' = {<<e.held[i][1], e.held[i][2]>> : i \in DOMAIN e.held}
  /\ snap' = <<fr, whole, hidden, ot, os, held'>>
  /\ l' = l + 1
  /\ UNCHANGED <<props, cfg, fr, whole, hidden, ot, os, drained, c11ok, pend, lin, fuzzy>>
Rewind ==
  /\ IsEv("rewind")
  /\ snap # <<>>
  /\ fr' = snap[1] /\ whole' = snap[2] /\ hidden' = snap[3] /\ ot' = snap[4] /\ os' = snap[5]
  /\ held' = snap[6]
  /\ pend' = FreshPend /\ lin' = FreshLin /\ fuzzy' = {}
  /\ drained' = FALSE
  /\ l' = l + 1
  /\ UNCHANGED <<props, cfg, c11ok, snap>>

----------------------------------------------------------------------------
\* C05: crash.  e.free = <<<<h, ranges>>, ...>> for EVERY huge frame: the per-frame
\* view of an allocator recovered from a snapshot of the persistent metadata taken
\* right before the e.w-th write; e.puts = <<<<f, o, ok>>, ...>> for every held block.

CrashFr(ev, h) == RangesToSet(SelectSeq(ev.free, LAMBDA p : p[1] = h)[1][2])

\* frames (absolute) of an in-flight call with a known footprint
Footprint(c, ev) ==
  IF ev.op = "put" THEN
     (IF ev.order < c.ho /\ whole[HugeOf(c, ev.frame)]
      THEN {HugeOf(c, ev.frame) * HF(c) + x : x \in AllOff(c)} ELSE BlockFrames(ev.frame, ev.order))
  ELSE IF ev.op = "get" /\ ev.target # -1 THEN BlockFrames(ev.target, ev.order)
  ELSE {}
\* untargeted in-flight gets may have touched one aligned block each, anywhere
RECURSIVE Cover(_, _)
Cover(M, orders) ==
  \/ M = {}
  \/ /\ orders # <<>>
     /\ LET m == CHOOSE x \in M : \A y \in M : x <= y
        IN \E i \in DOMAIN orders :
             LET b == (m \div Pow2(orders[i])) * Pow2(orders[i])
             IN Cover(M \ BlockFrames(b, orders[i]),
                      [j \in 1 .. Len(orders) - 1 |-> IF j < i THEN orders[j] ELSE orders[j + 1]])

Crash ==
  /\ IsEv("crash")
  /\ Chk("C05", "recovery-failed", e.ierr = "")
  /\ e.ierr = "" =>
      LET inflight == {t \in Threads : pend[t] # NoPend}
          known == UNION {Footprint(cfg, pend[t]) : t \in inflight}
          ug == {t \in inflight : pend[t].op = "get" /\ pend[t].target = -1}
          ugs == SetToSeq(ug)
          orders == [i \in 1 .. Len(ugs) |-> pend[ugs[i]].order]
          missing == UNION {{h * HF(cfg) + x : x \in fr[h] \ CrashFr(e, h)} : h \in Huges(cfg)}
      IN /\ Chk("C05", "completed-allocation-still-allocated",
                \A b \in held : \A x \in BlockFrames(b[1], b[2]) :
                    (x % HF(cfg)) \notin CrashFr(e, HugeOf(cfg, x)))
         /\ Chk("C05", "completed-allocation-can-be-freed",
                \A b \in held : \E i \in DOMAIN e.puts : e.puts[i] = <<b[1], b[2], 1>>)
         \* a started free touches the frames it names: the rest of the block it belongs to stays allocated
         /\ Chk("C05", "rest-of-partly-freed-block-still-allocated",
                \A t \in inflight :
                   (pend[t].op = "put" /\ Has(pend[t], "of")) =>
                      \A x \in BlockFrames(pend[t].of[1], pend[t].of[2]) \ BlockFrames(pend[t].frame, pend[t].order) :
                         (x % HF(cfg)) \notin CrashFr(e, HugeOf(cfg, x)))
         /\ Chk("C05", "free-frames-stay-free", Cover(missing \ known, orders))
         /\ Chk("C05", "recovered-counts-agree", e.ts[1] = e.stats[1] /\ e.validate = "ok")
         /\ Chk("C05", "recovered-exact-count",
                e.stats[1] = SumF([h \in Huges(cfg) |-> Cardinality(CrashFr(e, h))], Huges(cfg)))
  /\ l' = l + 1
  /\ UNCHANGED <<props, cfg, fr, whole, hidden, ot, os, drained, c11ok, pend, lin, held, fuzzy, snap>>

\* C21: a call run alone finishes within the bound
SoloBound(c) == 64 * (NT(c) + 16) * c.th * (2 * (HF(c) \div 64) + 6)
Solo ==
  /\ IsEv("solo")
  /\ Chk("C21", "solo-call-returns", e.res = "done")
  /\ Chk("C21", "solo-call-bounded", e.steps <= SoloBound(cfg))
  /\ l' = l + 1
  /\ UNCHANGED <<props, cfg, fr, whole, hidden, ot, os, drained, c11ok, pend, lin, held, fuzzy, snap>>

----------------------------------------------------------------------------

\* silent steps are only offered to threads whose linearization can matter for
\* the next event: all in-flight ones (few threads, short programs)
Next ==
  \/ Hdr \/ Reset \/ Reinit
  \/ SeqPanic \/ SeqGet \/ SeqPut \/ SeqDrain \/ SeqChange \/ SeqZBelow
  \/ ZCreate \/ NvmCreate \/ NvmRefuse
  \/ BulkGet \/ BulkPut
  \/ Call \/ Ret \/ Obs \/ Mark \/ Rewind
  \/ Crash \/ Solo
  \/ \E t \in Threads : Lin(t)

Spec == Init /\ [][Next]_vars

\* acceptance: highest line reached, kept in a TLC register (silent steps exist)
Progress == IF l > TLCGet(1) THEN TLCSet(1, l) ELSE TRUE
Accepted ==
  IF TLCGet(1) = NRec + 1 THEN PrintT(<<"ACCEPTED", NRec>>)
  ELSE PrintT(<<"REJECTED", TLCGet(1), IF TLCGet(1) <= NRec THEN Rec[TLCGet(1)].ev ELSE "eof">>) /\ FALSE
=============================================================================

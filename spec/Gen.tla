--------------------------------- MODULE Gen ---------------------------------
(***************************************************************************)
(* Symbolic operation alphabet for bounded-exhaustive sequential           *)
(* exploration (spec -> implementation).  A letter is a tuple that the     *)
(* harness resolves against its own list of held blocks (a deterministic   *)
(* function, logged in the resulting trace, so TLC later sees concrete     *)
(* arguments when it validates the execution against TraceAbs):            *)
(*   <<"get", order, class, slot, -1>>                                     *)
(*   <<"gat", order, class, slot, kind>>  kind: zero|held|last|mid|tree1|freed *)
(*   <<"putnew"|"putold", class, slot>>    free the newest / oldest block  *)
(*   <<"partnew", sub-order, part, class, slot>>  part 0 first,1 middle,2 last *)
(*   <<"putbad", kind>>   again | bigger | hugeover | never                *)
(*   <<"drain">>  <<"change", id, mclass, mfree, cclass, cop>>             *)
(*   <<"twin">>  hand the metadata over to a second allocator (C07)        *)
(*   <<"frag", tree>>  macro: one frame allocated in every row of a tree   *)
(* Every field is a string (TLC sets need comparable elements); numbers are *)
(* written as "0", "-1", sizes may be symbolic ("HO", "TO", "TF", "HO+1").   *)
(* TLC enumerates EVERY sequence of Depth letters of a theme's alphabet    *)
(* and prints it; the driver runs each on rotating configurations.         *)
(***************************************************************************)
EXTENDS Integers, Sequences, TLC, Json

CONSTANTS Letters, Depth
VARIABLE hist

Init == hist = <<>>
Next == /\ Len(hist) < Depth
        /\ \E x \in Letters : hist' = Append(hist, x)
Spec == Init /\ [][Next]_hist
Emit == Len(hist) = Depth => PrintT(<<"SEQ", ToJson(hist)>>)

----------------------------------------------------------------------------
\* Themes
Orders ==
  { <<"get", "0", "0", "0", "-1">>, <<"get", "0", "0", "-1", "-1">>, <<"get", "6", "0", "0", "-1">>, <<"get", "7", "0", "0", "-1">>,
    <<"get", "8", "0", "-1", "-1">>, <<"get", "HO", "1", "0", "-1">>, <<"get", "HO", "1", "-1", "-1">>, <<"get", "TO", "1", "0", "-1">>,
    <<"putnew", "0", "0">>, <<"putnew", "0", "-1">>, <<"putold", "0", "-1">>,
    <<"partnew", "0", "0", "0", "-1">>, <<"partnew", "0", "2", "0", "0">>, <<"partnew", "6", "1", "0", "-1">>,
    <<"drain">> }
Targeted ==
  { <<"gat", "0", "0", "0", "zero">>, <<"gat", "0", "0", "-1", "held">>, <<"gat", "0", "0", "0", "last">>, <<"gat", "7", "0", "-1", "mid">>,
    <<"gat", "HO", "1", "0", "zero">>, <<"gat", "HO", "1", "-1", "tree1">>, <<"gat", "3", "0", "0", "freed">>, <<"gat", "TO", "1", "-1", "zero">>,
    <<"get", "0", "0", "0", "-1">>, <<"get", "HO", "1", "0", "-1">>,
    <<"putnew", "0", "-1">>, <<"putbad", "again">>, <<"putbad", "bigger">>, <<"putbad", "hugeover">>, <<"putbad", "never">>,
    <<"drain">> }
Classy ==
  { <<"get", "0", "0", "0", "-1">>, <<"get", "0", "1", "0", "-1">>, <<"get", "0", "2", "0", "-1">>, <<"get", "0", "2", "-1", "-1">>,
    <<"get", "HO", "2", "0", "-1">>, <<"get", "HO", "1", "-1", "-1">>, <<"get", "TO", "2", "0", "-1">>,
    <<"putnew", "2", "-1">>, <<"putnew", "0", "0">>, <<"putold", "1", "-1">>,
    <<"change", "0", "-1", "0", "2", "0">>, <<"change", "-1", "1", "TF", "0", "0">>, <<"change", "1", "-1", "0", "0", "0">>,
    <<"twin">>, <<"drain">> }
Offline ==
  { <<"change", "0", "-1", "0", "-1", "2">>, <<"change", "0", "-1", "0", "2", "1">>, <<"change", "-1", "1", "TF", "-1", "2">>,
    <<"change", "-1", "-1", "0", "0", "1">>, <<"change", "1", "-1", "1", "-1", "2">>, <<"change", "5", "-1", "0", "-1", "2">>,
    <<"get", "0", "0", "0", "-1">>, <<"get", "0", "1", "-1", "-1">>, <<"get", "HO", "1", "0", "-1">>, <<"get", "TO", "1", "-1", "-1">>,
    <<"gat", "0", "0", "0", "zero">>, <<"gat", "HO", "1", "-1", "tree1">>,
    <<"putnew", "0", "-1">>, <<"putnew", "1", "0">>, <<"twin">>, <<"drain">> }
\* multi-row blocks (orders 7, 8) next to sub-row blocks: failing targeted allocations and
\* failing frees of partly held blocks must leave no trace
Rows ==
  { <<"gat", "6", "0", "-1", "f:0">>, <<"gat", "6", "0", "0", "f:128">>, <<"gat", "0", "0", "-1", "f:192">>,
    <<"gat", "0", "0", "0", "f:70">>, <<"gat", "7", "0", "-1", "f:128">>, <<"gat", "7", "0", "0", "f:256">>,
    <<"gat", "7", "0", "-1", "f:0">>, <<"gat", "8", "0", "-1", "f:256">>, <<"gat", "8", "0", "0", "f:0">>,
    <<"putraw", "128", "7">>, <<"putraw", "0", "7">>, <<"putraw", "256", "8">>, <<"putraw", "256", "7">>,
    <<"putnew", "0", "-1">> }
\* the slot's cursor (start row inside its reserved tree) x allocation orders through the same slot:
\* targeted allocations move the cursor into other huge frames, frees through the slot refill the reservation
Cursor ==
  { <<"get", "0", "0", "0", "-1">>, <<"gat", "0", "0", "0", "f:600">>, <<"gat", "0", "0", "0", "f:1600">>,
    <<"putnew", "0", "0">>, <<"get", "TO", "0", "0", "-1">>, <<"get", "HO+1", "0", "0", "-1">> }
\* fragmented trees ("frag" = one base frame allocated in every row of a tree): counters stay high while no
\* block of order >= 6 is free, so allocations decrement a counter, fail in the lower allocator and must undo
Frag ==
  { <<"frag", "0">>, <<"frag", "1">>, <<"get", "6", "0", "0", "-1">>, <<"get", "6", "0", "-1", "-1">>,
    <<"get", "7", "0", "0", "-1">>, <<"get", "HO", "1", "0", "-1">>, <<"get", "0", "0", "0", "-1">>,
    <<"putnew", "0", "-1">>, <<"drain">> }
\* completely allocated huge frames: targeted allocations into them must fail without touching the counter,
\* and the blocks that fill them must remain freeable
Full ==
  { <<"get", "8", "0", "-1", "-1">>, <<"gat", "0", "0", "-1", "held">>, <<"gat", "6", "0", "0", "held">>,
    <<"gat", "7", "0", "-1", "held">>, <<"putnew", "0", "-1">>, <<"putold", "0", "-1">>, <<"get", "HO", "1", "-1", "-1">> }
\* as many slots as trees (such a class never reserves on its own): reservations arrive only by demotion /
\* stealing when memory runs out
Demote ==
  { <<"get", "0", "1", "0", "-1">>, <<"get", "TO", "1", "-1", "-1">>, <<"get", "0", "0", "0", "-1">>,
    <<"get", "0", "0", "1", "-1">>, <<"get", "HO", "1", "0", "-1">>, <<"putnew", "0", "-1">>, <<"drain">>,
    <<"twin">> }
\* remote frees into reserved trees ("rfree" = macro: a whole tree allocated through a slot, then freed WITHOUT
\* naming the slot, so the reserved tree's global counter reaches the tree size) x class changes x drains
Remote ==
  { <<"rfree", "2", "0">>, <<"rfree", "0", "0">>, <<"rfree", "1", "0">>,
    <<"change", "0", "-1", "0", "2", "0">>, <<"change", "1", "-1", "0", "0", "0">>, <<"change", "-1", "-1", "TF", "2", "0">>,
    <<"get", "0", "2", "0", "-1">>, <<"get", "0", "0", "0", "-1">>, <<"get", "HO", "1", "0", "-1">>,
    <<"putnew", "0", "-1">>, <<"drain">>, <<"twin">> }
=============================================================================

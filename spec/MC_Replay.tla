----------------------------- MODULE MC_Replay -----------------------------
EXTENDS Replay
\* <<alloc?, pfn, order>>: allocations of orders 0..2 around pfn 8, whole and partial frees
\* (first / middle / last parts), frees of unknown frames, re-allocations; and the same one
\* level up (huge order 9 parts of an order-10 allocation)
SmallLetters ==
  { <<1, 8, 2>>, <<1, 8, 1>>, <<1, 12, 1>>, <<1, 10, 0>>,
    <<0, 8, 2>>, <<0, 8, 1>>, <<0, 10, 1>>, <<0, 8, 0>>, <<0, 9, 0>>, <<0, 10, 0>>, <<0, 11, 0>>, <<0, 12, 0>> }
HugeLetters ==
  { <<1, 1024, 10>>, <<0, 1024, 9>>, <<0, 1536, 9>>, <<0, 1024, 10>>, <<0, 1536, 0>>, <<0, 1544, 3>>, <<1, 1536, 9>> }
AllLetters == SmallLetters \cup HugeLetters
=============================================================================

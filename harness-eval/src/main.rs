//! Conformance harness for the evaluation crate (C19: class configurations).
use std::collections::HashMap;
use std::io::Write;
use std::panic::{AssertUnwindSafe, catch_unwind};

use llfree::*;
use llfree_eval::classes::ClassingConfig;
use serde_json::{Value, json};

fn kinds() -> [&'static str; 5] {
    ["zero", "one", "cores", "cores_half", "pids"]
}

/// synthetic configuration: class i serves orders [lo_i, hi_i]; `kinds[i]` is its slot-count kind
fn config_json(ks: &[&str], with_gfp: bool) -> String {
    config_json_ids(ks, with_gfp, "pos")
}

/// `ids`: "pos" = class ids equal list positions (as in the shipped files); "rev" = same classes, list reversed
/// (ids no longer equal positions); "sparse" = ids 0, 2, 5, 7
fn config_json_ids(ks: &[&str], with_gfp: bool, ids: &str) -> String {
    let n = ks.len();
    let mut classes = vec![];
    // order ranges: split 0..=10 into n consecutive ranges (the last class also takes the rest)
    let bounds: Vec<(usize, usize)> = match n {
        1 => vec![(0, 10)],
        2 => vec![(0, 8), (9, 10)],
        3 => vec![(0, 3), (4, 8), (9, 10)],
        _ => vec![(0, 0), (1, 3), (4, 8), (9, 9)], // order 10 matches nothing -> falls back to the first class
    };
    for (i, k) in ks.iter().enumerate() {
        let id = if ids == "sparse" { [0usize, 2, 5, 7][i] } else { i };
        let mut c = json!({"id": id, "count": k, "order": [bounds[i].0, bounds[i].1]});
        if with_gfp && i == 0 && n > 1 {
            c["gfp"] = json!({"off": "MOVABLE"});
        }
        classes.push(c);
    }
    let default = if ids == "sparse" { [0usize, 2, 5, 7][n - 1] } else { n - 1 };
    if ids == "rev" {
        classes.reverse();
    }
    json!({"classes": classes, "default": default, "perfect": [64, 2047], "good": [2048, 4095]}).to_string()
}

/// `lenient`: a configuration the harness does not accept is outside the property (skipped, not reported)
fn sweep(name: &str, cfg_s: &str, quick: bool, lenient: bool, out: &mut Vec<String>) {
    let cfg: ClassingConfig = match facet_json::from_str(cfg_s) {
        Ok(c) => c,
        Err(e) => {
            if !lenient {
                out.push(json!({"ev":"clscfg","name":name,"err":format!("{e}")}).to_string());
            }
            return;
        }
    };
    let cores_list: Vec<usize> = if quick { vec![1, 2, 3, 4, 8, 16] } else { (1..=16).collect() };
    for cores in cores_list {
        let classing = match catch_unwind(AssertUnwindSafe(|| cfg.classing(cores))) {
            Ok(c) => c,
            Err(_) => {
                if !lenient {
                    out.push(json!({"ev":"cls","name":name,"cores":cores,"classes":[],"reqs":[],"panic":"classing"}).to_string());
                }
                continue;
            }
        };
        let classes: Vec<Value> = classing.classes().iter().map(|&(c, n)| json!([c.0, n])).collect();
        // an allocator to use the requests on
        let frames = 8 * TREE_FRAMES;
        let ms = LLFree::metadata_size(&classing, frames);
        let meta = MetaData::alloc(&ms);
        let alloc = LLFree::new(frames, Init::FreeAll, &classing, meta).ok();
        let vals: Vec<usize> = if quick {
            let mut v = vec![0, 1, cores.saturating_sub(1), cores, cores + 1, 2 * cores, 2 * cores + 1, 63, 64];
            v.sort();
            v.dedup();
            v
        } else {
            (0..=64).collect()
        };
        let orders: Vec<usize> = if quick { vec![0, 3, 8, 9, 10] } else { (0..=10).collect() };
        let gfps: Vec<u32> = vec![0, 0x08, 0x08 | 0x10000000 | 0x02 | 0x80, 0x08 | 0x02 | 0x80, 0x08 | 0x8000, 0x10000000];
        let mut reqs = vec![];
        for (ci, &core) in vals.iter().enumerate() {
            for (pi, &pid) in vals.iter().enumerate() {
                if !quick && (ci + pi) % 3 != 0 && core != pid {
                    continue; // thorough: thin out the core x pid grid, keep the diagonal
                }
                for &order in &orders {
                    for &gfp in &gfps {
                        if (order + gfp as usize + core + pid) % 2 == 1 && order != 0 && order != 9 {
                            continue;
                        }
                        let r = catch_unwind(AssertUnwindSafe(|| cfg.request(order, core, cores, pid, gfp)));
                        match r {
                            Ok(rq) => {
                                let local = rq.local.map(|x| x as i64).unwrap_or(-1);
                                // use it: allocate and free again
                                let used = match &alloc {
                                    Some(a) => match catch_unwind(AssertUnwindSafe(|| {
                                        let g = a.get(None, rq);
                                        if let Ok((f, _)) = g {
                                            let _ = a.put(f, rq);
                                        }
                                        g.is_ok()
                                    })) {
                                        Ok(true) => 1,
                                        Ok(false) => 0,
                                        Err(_) => -1,
                                    },
                                    None => -2,
                                };
                                reqs.push(json!([core, pid, order, gfp as i64, rq.class.0, local, used]));
                            }
                            Err(_) => reqs.push(json!([core, pid, order, gfp as i64, -1, -1, -1])),
                        }
                    }
                }
            }
        }
        for chunk in reqs.chunks(400) {
            out.push(json!({"ev":"cls","name":name,"cores":cores,"classes":classes,"reqs":chunk,"panic":""}).to_string());
        }
    }
}

fn main() {
    std::panic::set_hook(Box::new(|_| {}));
    let mut a = std::env::args().skip(1);
    let cmd = a.next().unwrap_or_default();
    let m: HashMap<String, String> = a.filter_map(|kv| kv.split_once('=').map(|(k, v)| (k.to_string(), v.to_string()))).collect();
    let quick = m.get("tier").map(|t| t == "quick").unwrap_or(true);
    let part: usize = m.get("part").map(|x| x.parse().unwrap()).unwrap_or(0);
    let parts: usize = m.get("parts").map(|x| x.parse().unwrap()).unwrap_or(1);
    let mut out = vec![];
    match cmd.as_str() {
        "classes" => {
            let mut cfgs: Vec<(String, String)> = vec![];
            for n in 1..=4usize {
                for pos in 0..n {
                    for k in kinds() {
                        let mut ks = vec!["cores"; n];
                        ks[pos] = k;
                        cfgs.push((format!("syn:{n}:{pos}:{k}"), config_json(&ks, n % 2 == 0)));
                        if n >= 2 {
                            // the same classes with ids that are not their list positions
                            cfgs.push((format!("lenient:rev:{n}:{pos}:{k}"), config_json_ids(&ks, n % 2 == 0, "rev")));
                            cfgs.push((format!("lenient:sparse:{n}:{pos}:{k}"), config_json_ids(&ks, n % 2 == 0, "sparse")));
                        }
                    }
                }
                // all classes of the same kind
                for k in kinds() {
                    cfgs.push((format!("syn:{n}:all:{k}"), config_json(&vec![k; n], false)));
                }
            }
            if let Ok(rd) = std::fs::read_dir("/repo/results") {
                let mut files: Vec<_> = rd.filter_map(|e| e.ok()).map(|e| e.path()).collect();
                files.sort();
                for p in files {
                    let nm = p.file_name().unwrap().to_string_lossy().to_string();
                    if nm.starts_with("classes") && nm.ends_with(".json") {
                        cfgs.push((format!("file:{nm}"), std::fs::read_to_string(&p).unwrap()));
                    }
                }
            }
            for (i, (name, c)) in cfgs.iter().enumerate() {
                if i % parts == part {
                    sweep(name, c, quick, name.starts_with("lenient:"), &mut out);
                }
            }
        }
        _ => {
            eprintln!("usage: vharness-eval classes out=FILE [tier=quick|thorough part=i parts=n]");
            std::process::exit(2);
        }
    }
    let path = m.get("out").expect("out=FILE");
    let mut f = std::io::BufWriter::new(std::fs::File::create(path).unwrap());
    let props: Vec<&str> = m.get("props").map(|p| p.split(',').collect()).unwrap_or_default();
    writeln!(f, "{}", json!({"ev":"hdr","props":props})).unwrap();
    for l in out {
        writeln!(f, "{l}").unwrap();
    }
}
